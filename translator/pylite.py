"""pylite — a fail-closed translator from a small subset of Python (as used by
pycel's pure helper functions) to Coq terms over PV.Lib.Py.

Every function becomes  f_<name> : pyval -> ... -> res pyval.
Anything outside the subset raises Untranslatable: the caller (the check)
treats that as "the tie to the source broke" (DESIGN.md 2.2-5).

The mapping Python construct -> Coq library function is part of the trusted
base; it is policed by the correspondence runs (the generated definitions are
extracted and executed against the real functions).
"""
import ast
import fractions
import importlib
import sys


class Untranslatable(Exception):
    pass


def bail(node, why):
    line = getattr(node, 'lineno', '?')
    raise Untranslatable(f"line {line}: {why}: {ast.dump(node)[:200] if isinstance(node, ast.AST) else node}")


# ---------------------------------------------------------------- literals
def coq_z(n):
    return f"({n})" if n < 0 else str(n)


def coq_str(s):
    return "[" + "; ".join(str(ord(c)) for c in s) + "]"


def coq_q(x):
    fr = fractions.Fraction(x)
    return f"({coq_z(fr.numerator)} # {fr.denominator})"


BUILTIN_FUNS = {
    'bin': 'BBin', 'oct': 'BOct', 'hex': 'BHex', 'min': 'BMin', 'max': 'BMax',
    'eq': 'BOpEq', 'ne': 'BOpNe', 'lt': 'BOpLt', 'le': 'BOpLe', 'gt': 'BOpGt',
    'ge': 'BOpGe',
}


def coq_value(v):
    """A Python runtime value (module constant) as a Coq pyval literal."""
    import operator
    if v is None:
        return "VNone"
    if isinstance(v, bool):
        return f"(VBool {'true' if v else 'false'})"
    if isinstance(v, int):
        return f"(VInt {coq_z(v)})"
    if isinstance(v, float):
        if v != v or v in (float('inf'), float('-inf')):
            raise Untranslatable(f"non-finite float constant {v}")
        return f"(VFloat {coq_q(v)})"
    if isinstance(v, str):
        return f"(VStr {coq_str(v)})"
    import datetime as _dt
    if isinstance(v, _dt.datetime):
        if (v.hour, v.minute, v.second, v.microsecond) != (0, 0, 0, 0) or v.tzinfo is not None:
            raise Untranslatable(f"datetime constant with a time part: {v!r}")
        return f"(VInt {v.toordinal()})"      # a midnight datetime is its ordinal (Lib/PyDate.v)
    if isinstance(v, tuple):
        return "(VTuple [" + "; ".join(coq_value(x) for x in v) + "])"
    if isinstance(v, list):
        return "(VList [" + "; ".join(coq_value(x) for x in v) + "])"
    if isinstance(v, (set, frozenset)):
        items = sorted(v, key=repr)
        return "(VSet [" + "; ".join(coq_value(x) for x in items) + "])"
    if isinstance(v, dict):
        return "(VDict [" + "; ".join(
            f"({coq_value(k)}, {coq_value(x)})" for k, x in v.items()) + "])"
    if callable(v):
        name = getattr(v, '__name__', None)
        mod = getattr(v, '__module__', None)
        if mod in ('builtins', '_operator', 'operator') and name in BUILTIN_FUNS:
            return f"(VFun {BUILTIN_FUNS[name]})"
    raise Untranslatable(f"constant of unsupported type: {v!r}")


EXN = {'ValueError', 'TypeError', 'ZeroDivisionError', 'IndexError', 'KeyError',
       'AssertionError', 'AttributeError', 'OverflowError', 'NotImplementedError',
       'RecursionError', 'StopIteration'}

TYNAMES = {'bool': 'TBool', 'int': 'TInt', 'float': 'TFloat', 'str': 'TStr',
           'tuple': 'TTuple', 'list': 'TList', 'set': 'TSet', 'dict': 'TDict',
           'frozenset': 'TSet'}

BINOPS = {ast.Add: 'py_add', ast.Sub: 'py_sub', ast.Mult: 'py_mul',
          ast.Div: 'py_truediv', ast.FloorDiv: 'py_floordiv', ast.Mod: 'py_mod',
          ast.Pow: 'py_pow', ast.BitAnd: 'py_bitand', ast.BitOr: 'py_bitor',
          ast.BitXor: 'py_bitxor', ast.LShift: 'py_lshift', ast.RShift: 'py_rshift'}

CMPOPS = {ast.Lt: 'py_lt', ast.LtE: 'py_le', ast.Gt: 'py_gt', ast.GtE: 'py_ge'}


def assigned_names(stmts):
    out = []

    def tgt(t):
        if isinstance(t, ast.Name):
            if t.id not in out:
                out.append(t.id)
        elif isinstance(t, (ast.Tuple, ast.List)):
            for e in t.elts:
                tgt(e)
        else:
            bail(t, "unsupported assignment target")

    def walk(ss):
        for s in ss:
            if isinstance(s, ast.Assign):
                for t in s.targets:
                    tgt(t)
            elif isinstance(s, ast.AugAssign):
                tgt(s.target)
            elif isinstance(s, ast.If):
                walk(s.body)
                walk(s.orelse)
            elif isinstance(s, ast.Try):
                walk(s.body)
                for h in s.handlers:
                    walk(h.body)
                walk(s.orelse)
                walk(s.finalbody)
            elif isinstance(s, (ast.For, ast.While)):
                if isinstance(s, ast.For):
                    tgt(s.target)
                walk(s.body)
                walk(s.orelse)
    walk(stmts)
    return out


def falls_through(stmts):
    """Can control reach the end of this statement list?"""
    for s in stmts:
        if isinstance(s, (ast.Return, ast.Raise)):
            return False
        if isinstance(s, ast.If):
            if not falls_through(s.body) and not falls_through(s.orelse):
                return False
        if isinstance(s, ast.Try):
            paths = [s.body + s.orelse] + [h.body for h in s.handlers]
            if not any(falls_through(p) for p in paths):
                return False
    return True


def names_used(stmts):
    used = set()
    for s in stmts:
        for n in ast.walk(s):
            if isinstance(n, ast.Name):
                used.add(n.id)
    return used


class FuncInfo:
    def __init__(self, name, params, defaults, recursive, coqname, vararg=None):
        self.name = name
        self.params = params        # list of names (positional-or-keyword + kwonly)
        self.defaults = defaults    # name -> ast expr
        self.recursive = recursive
        self.coqname = coqname
        self.vararg = vararg


class ModuleTranslator:
    """Translate selected functions/constants of one Python module."""

    def __init__(self, modname, pymod, path, funcs=(), consts=(), partials=(),
                 externs=None, libcalls=None, fuel=None, methods=None, import_consts=(),
                 header_imports=()):
        self.modname = modname
        self.pymod = pymod
        self.path = path
        self.src = open(path).read()
        self.tree = ast.parse(self.src)
        self.func_names = list(funcs)
        self.import_consts = list(import_consts)
        self.header_imports = list(header_imports)
        self.const_names = list(consts) + list(import_consts)
        self.partial_names = list(partials)
        # externs: python name -> ('const'|'func', coq qualified name, FuncInfo|None)
        self.externs = dict(externs or {})
        # libcalls: python function name -> (coq function, arity)   res pyval
        self.libcalls = dict(libcalls or {})
        self.fuel = dict(fuel or {})
        self.methods = dict(methods or {})   # 'Class.method' requested as funcs
        self.infos = {}
        self.tmp = 0
        self.local_funcs = {}

    # -- helpers
    def fresh(self, base='t'):
        self.tmp += 1
        return f"{base}{self.tmp}_"

    def find_def(self, name):
        if '.' in name:
            cls, meth = name.split('.')
            for n in self.tree.body:
                if isinstance(n, ast.ClassDef) and n.name == cls:
                    for m in n.body:
                        if isinstance(m, ast.FunctionDef) and m.name == meth:
                            return m
            raise Untranslatable(f"{self.modname}: method {name} not found")
        for n in self.tree.body:
            if isinstance(n, ast.FunctionDef) and n.name == name:
                return n
        raise Untranslatable(f"{self.modname}: function {name} not found")

    def find_assign(self, name):
        for n in self.tree.body:
            if isinstance(n, ast.Assign) and len(n.targets) == 1 \
                    and isinstance(n.targets[0], ast.Name) and n.targets[0].id == name:
                return n
        raise Untranslatable(f"{self.modname}: assignment {name} not found")

    @staticmethod
    def coq_fname(name):
        return "f_" + name.replace('.', '_')

    def info_of(self, fd, name):
        a = fd.args
        if a.kwarg or a.posonlyargs:
            bail(fd, "unsupported signature")
        params = [x.arg for x in a.args] + [x.arg for x in a.kwonlyargs]
        defaults = {}
        for x, d in zip(a.args[len(a.args) - len(a.defaults):], a.defaults):
            defaults[x.arg] = d
        for x, d in zip(a.kwonlyargs, a.kw_defaults):
            if d is not None:
                defaults[x.arg] = d
        if '.' in name and params and params[0] in ('self', 'cls'):
            pass
        rec = any(isinstance(n, ast.Call) and isinstance(n.func, ast.Name)
                  and n.func.id == fd.name for n in ast.walk(fd)) and '.' not in name
        return FuncInfo(name, params, defaults, rec, self.coq_fname(name),
                        vararg=a.vararg.arg if a.vararg else None)

    # -- module level
    def translate(self):
        mod = importlib.import_module(self.pymod)
        shown = self.path[self.path.index('/src/pycel/') + 1:] if '/src/pycel/' in self.path else self.path
        out = [f"(* GENERATED by translator/pylite.py from {shown} of the tree under test — do not edit *)",
               "From Coq Require Import ZArith QArith List Bool.",
               "From PV Require Import Lib.Py.",
               *[f"From PV Require Import {h}." for h in self.header_imports],
               "Import ListNotations.",
               "Open Scope Z_scope.",
               ""]
        for dep in sorted({q.split('.')[0] for (_, q, _) in self.externs.values() if '.' in q}):
            out.append(f"From PV Require Gen.{dep}.")
        out.append("")
        for c in self.const_names:
            if c not in self.import_consts:
                self.find_assign(c)     # must still be a module-level assignment
            out.append(f"Definition c_{c} : pyval := {coq_value(getattr(mod, c))}.")
        out.append("")
        for f in self.func_names:
            fd = self.find_def(f)
            self.infos[f.split('.')[-1] if '.' in f else f] = self.info_of(fd, f)
            self.infos[f] = self.infos[f.split('.')[-1] if '.' in f else f]
        for f in self.dependency_order():
            out.append(self.function(self.find_def(f), self.infos[f]))
            out.append("")
        for p in self.partial_names:
            out.append(self.partial(p))
            out.append("")
        return "\n".join(out)

    def dependency_order(self):
        """func_names with callees before callers (stable; self-calls ignored)."""
        short = {f.split('.')[-1]: f for f in self.func_names}
        deps = {}
        for f in self.func_names:
            fd = self.find_def(f)
            deps[f] = [short[n.func.id] for n in ast.walk(fd)
                       if isinstance(n, ast.Call) and isinstance(n.func, ast.Name)
                       and n.func.id in short and short[n.func.id] != f]
        out, seen = [], set()

        def visit(f, stack=()):
            if f in seen:
                return
            if f in stack:
                raise Untranslatable(f"mutual recursion through {f}")
            for d in deps[f]:
                visit(d, stack + (f,))
            seen.add(f)
            out.append(f)
        for f in self.func_names:
            visit(f)
        return out

    def partial(self, name):
        asg = self.find_assign(name)
        c = asg.value
        if not (isinstance(c, ast.Call) and isinstance(c.func, ast.Attribute)
                and c.func.attr == 'partial' and len(c.args) == 1
                and isinstance(c.args[0], ast.Name)):
            bail(asg, "not a functools.partial(f, kw=const) assignment")
        target = c.args[0].id
        info = self.infos.get(target)
        if info is None:
            bail(asg, f"partial of untranslated function {target}")
        fixed = {}
        for kw in c.keywords:
            fixed[kw.arg] = kw.value
        free = [p for p in info.params if p not in fixed]
        self.scope = set(free)
        args = []
        for p in info.params:
            if p in fixed:
                args.append(self.atom_const(fixed[p]))
            else:
                args.append(f"v_{p}")
        fuel = f" {self.fuel[target]}" if info.recursive else ""
        pinfo = FuncInfo(name, free, {p: info.defaults[p] for p in free if p in info.defaults},
                         False, self.coq_fname(name))
        self.infos[name] = pinfo
        ps = " ".join(f"v_{p}" for p in free)
        return (f"Definition {pinfo.coqname} ({ps} : pyval) : res pyval :=\n"
                f"  {info.coqname}{fuel} {' '.join(args)}.")

    def atom_const(self, e):
        if isinstance(e, ast.Constant):
            return coq_value(e.value)
        if isinstance(e, ast.UnaryOp) and isinstance(e.op, ast.USub) \
                and isinstance(e.operand, ast.Constant):
            return coq_value(-e.operand.value)
        if isinstance(e, ast.Name) and e.id in self.const_names:
            return f"c_{e.id}"
        if isinstance(e, ast.Name) and e.id in self.externs and self.externs[e.id][0] == 'const':
            return self.externs[e.id][1]
        bail(e, "default/partial argument is not a constant")

    # -- functions
    def function(self, fd, info):
        self.scope = set(info.params)
        if info.vararg:
            self.scope.add(info.vararg)
        self.cur = info
        self.local_funcs = {}
        body = [s for s in fd.body
                if not (isinstance(s, ast.Expr) and isinstance(s.value, ast.Constant)
                        and isinstance(s.value.value, str))]
        params = list(info.params) + ([info.vararg] if info.vararg else [])
        ps = " ".join(f"v_{p}" for p in params)
        sig = f"({ps} : pyval)" if params else ""
        term = self.block(body, lambda t: t, "(Ok VNone)")
        if info.recursive:
            return (f"Fixpoint {info.coqname} (fuel : nat) {sig} {{struct fuel}} : res pyval :=\n"
                    f"  match fuel with\n  | O => Raise OutOfFuel\n  | S fuel' =>\n{term}\n  end.")
        return f"Definition {info.coqname} {sig} : res pyval :=\n{term}."

    # -- statements.  ret: wraps a (res pyval) term into the block's result;
    #    k: term to run when control falls off the end of the block.
    def block(self, stmts, ret, k):
        if not stmts:
            return k
        s, rest = stmts[0], stmts[1:]
        if isinstance(s, ast.Return):
            return ret(self.E(s.value) if s.value is not None else "(Ok VNone)")
        if isinstance(s, ast.Raise):
            return f"(Raise {self.exn_of(s.exc)})"
        if isinstance(s, ast.Pass):
            return self.block(rest, ret, k)
        if isinstance(s, ast.Expr):
            if isinstance(s.value, ast.Constant):
                return self.block(rest, ret, k)
            return f"(bind {self.E(s.value)} (fun _ =>\n{self.block(rest, ret, k)}))"
        if isinstance(s, ast.Assert):
            return (f"(bind {self.C(s.test)} (fun a_ => if a_ then\n{self.block(rest, ret, k)}\n"
                    f" else Raise AssertionError))")
        if isinstance(s, ast.Assign):
            if len(s.targets) != 1:
                bail(s, "chained assignment")
            if self.quant_assign(s):
                return self.block(rest, ret, k)
            return self.assign(s.targets[0], self.E(s.value), rest, ret, k)
        if isinstance(s, ast.AugAssign):
            if not isinstance(s.target, ast.Name) or type(s.op) not in BINOPS:
                bail(s, "unsupported augmented assignment")
            self.need(s.target.id, s)
            e = f"(lift2 {BINOPS[type(s.op)]} (Ok v_{s.target.id}) {self.E(s.value)})"
            return self.assign(s.target, e, rest, ret, k)
        if isinstance(s, ast.If):
            return self.if_stmt(s, rest, ret, k)
        if isinstance(s, ast.Try):
            return self.try_stmt(s, rest, ret, k)
        if isinstance(s, ast.For):
            return self.for_stmt(s, rest, ret, k)
        if isinstance(s, ast.FunctionDef):
            # a local closure: remembered and inlined at its call sites
            self.local_funcs[s.name] = s
            return self.block(rest, ret, k)
        bail(s, "unsupported statement")

    def need(self, name, node):
        if name not in self.scope:
            bail(node, f"variable {name} may be unbound here")

    def assign(self, target, eterm, rest, ret, k):
        if isinstance(target, ast.Name):
            self.scope.add(target.id)
            return f"(bind {eterm} (fun v_{target.id} =>\n{self.block(rest, ret, k)}))"
        if isinstance(target, (ast.Tuple, ast.List)):
            if not all(isinstance(e, ast.Name) for e in target.elts):
                bail(target, "nested unpacking")
            names = [e.id for e in target.elts]
            tmps = [self.fresh('u') for _ in names]
            pat = "[" + "; ".join(tmps) + "]"
            for n in names:
                self.scope.add(n)
            # simultaneous rebind (handles a, b = b, a)
            inner = self.block(rest, ret, k)
            lets = "".join(f"let v_{n} := {t} in " for n, t in zip(names, tmps))
            return (f"(bind (lift1 (fun x_ => bind (py_iter x_) (fun l_ => Ok (VList l_))) {eterm}) "
                    f"(fun p_ => match p_ with VList {pat} => {lets}\n{inner}\n"
                    f" | _ => Raise ValueError end))")
        bail(target, "unsupported assignment target")

    def if_stmt(self, s, rest, ret, k):
        c = self.C(s.test)
        scope0 = set(self.scope)
        bt, ot = falls_through(s.body), falls_through(s.orelse)
        if not rest or not (bt and ot):
            # no join point needed: at most one branch continues into rest
            self.scope = set(scope0)
            b = self.block(s.body + (rest if bt else []), ret, k)
            sb = set(self.scope)
            self.scope = set(scope0)
            o = self.block(s.orelse + (rest if ot else []), ret, k)
            so = set(self.scope)
            # scope after the statement: what every path that falls through defines
            if bt and ot:
                self.scope = sb & so
            elif bt:
                self.scope = sb
            elif ot:
                self.scope = so
            else:
                self.scope = set(scope0)
            return f"(bind {c} (fun c_ => if c_ then\n{b}\n else\n{o}))"
        # both branches fall through and something follows: join point
        av = assigned_names(s.body + s.orelse)
        used_later = names_used(rest)
        self.scope = set(scope0)
        self.block(s.body, ret, "(Ok VNone)")      # dry run to compute scopes
        sb = set(self.scope)
        self.scope = set(scope0)
        self.block(s.orelse, ret, "(Ok VNone)")
        so = set(self.scope)
        join = [v for v in av if v in sb and v in so]
        for v in av:
            if v not in join and v in used_later and v not in scope0:
                # maybe-unbound at the join and used afterwards
                bail(s, f"variable {v} is not definitely assigned after if")
        kname = self.fresh('k')
        args = " ".join(f"v_{v}" for v in join)
        call = f"({kname} {args})" if join else f"({kname} tt)"
        self.scope = set(scope0)
        b = self.block(s.body, ret, call)
        self.scope = set(scope0)
        o = self.block(s.orelse, ret, call)
        self.scope = set(scope0) | set(join)
        r = self.block(rest, ret, k)
        params = f"({args} : pyval)" if join else "(_ : unit)"
        return (f"(let {kname} := fun {params} =>\n{r} in\n"
                f" bind {c} (fun c_ => if c_ then\n{b}\n else\n{o}))")

    def exn_of(self, e):
        if e is None:
            return "Unmodelled"
        if isinstance(e, ast.Call):
            e = e.func
        if isinstance(e, ast.Name) and e.id in EXN:
            return e.id
        if isinstance(e, ast.Name) and e.id in ('PyCelException',):
            return "Unmodelled"
        bail(e, "unsupported exception class")

    def try_stmt(self, s, rest, ret, k):
        if s.finalbody or s.orelse:
            bail(s, "try/finally or try/else")
        av = assigned_names(s.body + [x for h in s.handlers for x in h.body])
        scope0 = set(self.scope)
        # dry runs for scopes
        self.scope = set(scope0)
        self.block(s.body, lambda t: t, "(Ok VNone)")
        sb = set(self.scope)
        shs = []
        for h in s.handlers:
            self.scope = set(scope0)
            self.block(h.body, lambda t: t, "(Ok VNone)")
            shs.append(set(self.scope))
        paths = ([sb] if falls_through(s.body) else []) + \
                [sh for h, sh in zip(s.handlers, shs) if falls_through(h.body)]
        join = [v for v in av if all(v in p for p in paths)] if paths else []
        used_later = names_used(rest)
        for v in av:
            if v not in join and v in used_later and v not in scope0:
                bail(s, f"variable {v} is not definitely assigned after try")
        tup = "(VList [" + "; ".join(f"v_{v}" for v in join) + "])"
        # body in "ctl" mode: inl v = returned v, inr vars = fell through
        self.scope = set(scope0)
        body = self.block(s.body, lambda t: f"(bind {t} (fun r_ => Ok (inl r_)))",
                          f"(Ok (inr {tup}))")
        hterm = "(Raise e_)"
        for h in reversed(s.handlers):
            if h.name is not None:
                # "except X as exc": the bound exception object is not modelled
                if any(isinstance(n, ast.Name) and n.id == h.name
                       for st in h.body for n in ast.walk(st)):
                    bail(h, "use of the bound exception object")
            if h.type is None:
                bail(h, "bare except")
            types = h.type.elts if isinstance(h.type, ast.Tuple) else [h.type]
            es = "[" + "; ".join(self.exn_of(t) for t in types) + "]"
            self.scope = set(scope0)
            hb = self.block(h.body, lambda t: f"(bind {t} (fun r_ => Ok (inl r_)))",
                            f"(Ok (inr {tup}))")
            hterm = f"(if catches {es} e_ then\n{hb}\n else {hterm})"
        self.scope = set(scope0) | set(join)
        r = self.block(rest, ret, k)
        pat = "[" + "; ".join(f"v_{v}" for v in join) + "]"
        retv = ret("(Ok r_)")
        return (f"(bind (match {body} with Ok x_ => Ok x_ | Raise e_ => {hterm} end)\n"
                f" (fun o_ => match o_ with inl r_ => {retv}\n"
                f"  | inr (VList {pat}) =>\n{r}\n  | inr _ => Raise Unmodelled end))")

    def for_stmt(self, s, rest, ret, k):
        """for x in it: body — a structural fix over the materialised iterable.
        Supported body: assignments / augmented assignments / if without
        return, break or continue (an accumulation loop)."""
        if s.orelse:
            bail(s, "for/else")
        for n in ast.walk(s):
            if isinstance(n, (ast.Break, ast.Continue, ast.Return)):
                bail(s, "break/continue/return inside for")
        if not isinstance(s.target, ast.Name):
            bail(s, "for target")
        it = self.E(s.iter)
        scope0 = set(self.scope)
        av = [v for v in assigned_names(s.body) if v in scope0]
        loop = self.fresh('loop')
        args = " ".join(f"v_{v}" for v in av)
        self.scope = set(scope0) | {s.target.id}
        call = f"({loop} l_ {args})"
        body = self.block(s.body, ret, call)
        self.scope = set(scope0)
        r = self.block(rest, ret, k)
        params = " ".join(f"(v_{v} : pyval)" for v in av)
        return (f"(bind (lift1 (fun x_ => py_iter x_) {it}) (fun it_ =>\n"
                f" (fix {loop} (l_ : list pyval) {params} {{struct l_}} := match l_ with\n"
                f"  | [] =>\n{r}\n  | v_{s.target.id} :: l_ =>\n{body}\n  end) it_ {args}))")

    # -- expressions (value context): a term of type res pyval
    def E(self, e):
        if isinstance(e, ast.Constant):
            if isinstance(e.value, (bool, int, float, str)) or e.value is None:
                return f"(Ok {coq_value(e.value)})"
            bail(e, "constant")
        if isinstance(e, ast.Name):
            return f"(Ok {self.name(e)})"
        if isinstance(e, ast.BinOp):
            if type(e.op) not in BINOPS:
                bail(e, "binary operator")
            return f"(lift2 {BINOPS[type(e.op)]} {self.E(e.left)} {self.E(e.right)})"
        if isinstance(e, ast.UnaryOp):
            if isinstance(e.op, ast.Not):
                return f"(val_of (b_not {self.C(e.operand)}))"
            op = {ast.USub: 'py_neg', ast.UAdd: 'py_pos', ast.Invert: 'py_invert'}[type(e.op)]
            return f"(lift1 {op} {self.E(e.operand)})"
        if isinstance(e, ast.BoolOp):
            f = 'py_and' if isinstance(e.op, ast.And) else 'py_or'
            t = self.E(e.values[-1])
            for v in reversed(e.values[:-1]):
                t = f"({f} {self.E(v)} {t})"
            return t
        if isinstance(e, ast.Compare):
            return f"(val_of {self.C(e)})"
        if isinstance(e, ast.IfExp):
            return f"(bind {self.C(e.test)} (fun c_ => if c_ then {self.E(e.body)} else {self.E(e.orelse)}))"
        if isinstance(e, ast.Tuple) or isinstance(e, ast.List):
            ctor = 'VTuple' if isinstance(e, ast.Tuple) else 'VList'
            if any(isinstance(x, ast.Starred) for x in e.elts):
                bail(e, "starred element")
            tmps = [self.fresh('e') for _ in e.elts]
            t = f"(Ok ({ctor} [" + "; ".join(tmps) + "]))"
            for x, tmp in reversed(list(zip(e.elts, tmps))):
                t = f"(bind {self.E(x)} (fun {tmp} => {t}))"
            return t
        if isinstance(e, ast.Set):
            tmps = [self.fresh('e') for _ in e.elts]
            t = "(Ok (VSet [" + "; ".join(tmps) + "]))"
            for x, tmp in reversed(list(zip(e.elts, tmps))):
                t = f"(bind {self.E(x)} (fun {tmp} => {t}))"
            return t
        if isinstance(e, ast.Subscript):
            return self.subscript(e)
        if isinstance(e, ast.Attribute):
            return self.attribute(e)
        if isinstance(e, ast.Call):
            return self.call(e)
        if isinstance(e, (ast.GeneratorExp, ast.ListComp)):
            elt, cond, it = self.gen_parts(e)
            ctor = 'VList'
            return f"(bind {it} (fun it_ => bind (genexp {elt} {cond} it_) (fun l_ => Ok ({ctor} l_))))"
        bail(e, "unsupported expression")

    def name(self, e):
        n = e.id
        if n in self.scope:
            return f"v_{n}"
        if n in self.const_names:
            return f"c_{n}"
        if n in self.externs and self.externs[n][0] == 'const':
            return self.externs[n][1]
        if n in BUILTIN_FUNS and n in ('min', 'max'):
            return f"(VFun {BUILTIN_FUNS[n]})"
        bail(e, f"unknown name {n}")

    def subscript(self, e):
        if isinstance(e.slice, ast.Slice):
            if e.slice.step is not None:
                bail(e, "slice step")
            lo = self.E(e.slice.lower) if e.slice.lower is not None else "(Ok VNone)"
            hi = self.E(e.slice.upper) if e.slice.upper is not None else "(Ok VNone)"
            return (f"(bind {self.E(e.value)} (fun c_ => bind {lo} (fun lo_ => "
                    f"bind {hi} (fun hi_ => py_slice c_ lo_ hi_))))")
        return f"(lift2 py_getitem {self.E(e.value)} {self.E(e.slice)})"

    def attribute(self, e):
        # module-qualified constants and modelled object attributes
        key = self.dotted(e)
        if key and key in self.externs and self.externs[key][0] == 'const':
            return f"(Ok {self.externs[key][1]})"
        if e.attr in self.libcalls.get('__attrs__', {}):
            return f"(lift1 {self.libcalls['__attrs__'][e.attr]} {self.E(e.value)})"
        bail(e, "unsupported attribute")

    @staticmethod
    def dotted(e):
        parts = []
        while isinstance(e, ast.Attribute):
            parts.append(e.attr)
            e = e.value
        if isinstance(e, ast.Name):
            parts.append(e.id)
            return ".".join(reversed(parts))
        return None

    def gen_parts(self, g):
        if len(g.generators) != 1:
            bail(g, "nested comprehension")
        comp = g.generators[0]
        if comp.is_async:
            bail(g, "async comprehension")
        saved = set(self.scope)
        it = self.E(comp.iter)
        it = f"(lift1 (fun x_ => bind (py_iter x_) (fun l_ => Ok (VList l_))) {it})"
        it = f"(bind {it} (fun x_ => match x_ with VList l_ => Ok l_ | _ => Raise TypeError end))"
        if isinstance(comp.target, ast.Name):
            self.scope.add(comp.target.id)
            binder = f"v_{comp.target.id}"
            wrap = lambda t: f"(fun {binder} => {t})"
        elif isinstance(comp.target, ast.Tuple) and all(isinstance(x, ast.Name) for x in comp.target.elts):
            names = [x.id for x in comp.target.elts]
            for n in names:
                self.scope.add(n)
            pat = "[" + "; ".join(f"v_{n}" for n in names) + "]"
            wrap = lambda t: (f"(fun x_ => bind (py_iter x_) (fun p_ => match p_ with {pat} => {t} "
                              f"| _ => Raise ValueError end))")
        else:
            bail(g, "comprehension target")
        cond = "(Ok true)"
        for c in reversed(comp.ifs):
            cond = f"(b_and {self.C(c)} {cond})" if cond != "(Ok true)" else self.C(c)
        elt = self.E(g.elt)
        self.scope = saved
        return wrap(elt), wrap(cond), it

    def args_for(self, info, call):
        """Positional argument terms for a call of a translated function."""
        if any(isinstance(a, ast.Starred) for a in call.args):
            # f(*t) with t a tuple of exactly the remaining parameters
            if len(call.args) >= 1 and isinstance(call.args[-1], ast.Starred) and not call.keywords \
                    and not any(isinstance(a, ast.Starred) for a in call.args[:-1]):
                fixed = call.args[:-1]
                n = len(info.params) - len(fixed)
                tmps = [self.fresh('s') for _ in range(n)]
                return ('star', [self.E(a) for a in fixed], self.E(call.args[-1].value), tmps)
            bail(call, "starred call")
        given = {}
        if info.vararg:
            npos = len(info.params) - len([p for p in info.params if p in getattr(info, 'kwonly', ())])
        for p, a in zip(info.params, call.args):
            given[p] = self.E(a)
        if len(call.args) > len(info.params):
            bail(call, "too many positional arguments")
        for kw in call.keywords:
            if kw.arg is None or kw.arg not in info.params:
                bail(call, "unknown keyword")
            given[kw.arg] = self.E(kw.value)
        out = []
        for p in info.params:
            if p in given:
                out.append(given[p])
            elif p in info.defaults:
                out.append(f"(Ok {self.atom_const(info.defaults[p])})")
            else:
                bail(call, f"missing argument {p}")
        return ('plain', out)

    def call_known(self, coqname, info, call, fuel):
        spec = self.args_for(info, call)
        if spec[0] == 'plain':
            terms = spec[1]
            tmps = [self.fresh('a') for _ in terms]
            t = f"({coqname}{fuel} {' '.join(tmps)})"
            for a, tmp in reversed(list(zip(terms, tmps))):
                t = f"(bind {a} (fun {tmp} => {t}))"
            return t
        _, fixed, star, stmps = spec
        ftmps = [self.fresh('a') for _ in fixed]
        pat = "[" + "; ".join(stmps) + "]"
        t = (f"(bind {star} (fun s_ => bind (py_iter s_) (fun l_ => match l_ with {pat} => "
             f"{coqname}{fuel} {' '.join(ftmps + stmps)} | _ => Raise TypeError end)))")
        for a, tmp in reversed(list(zip(fixed, ftmps))):
            t = f"(bind {a} (fun {tmp} => {t}))"
        return t

    def call(self, e):
        f = e.func
        # special source patterns first
        sp = self.special_call(e)
        if sp is not None:
            return sp
        if isinstance(f, ast.Name):
            n = f.id
            if n in self.scope:
                # calling a local variable holding a builtin function value
                args = [self.E(a) for a in e.args]
                tmps = [self.fresh('a') for _ in args]
                t = f"(py_call v_{n} [{'; '.join(tmps)}])"
                for a, tmp in reversed(list(zip(args, tmps))):
                    t = f"(bind {a} (fun {tmp} => {t}))"
                return t
            if n in self.infos:
                info = self.infos[n]
                fuel = ""
                if info.recursive:
                    fuel = " fuel'" if self.cur is info else f" {self.fuel[n]}"
                return self.call_known(info.coqname, info, e, fuel)
            if n in self.externs and self.externs[n][0] == 'func':
                _, q, info = self.externs[n]
                fuel = f" {self.fuel[n]}" if info.recursive else ""
                return self.call_known(q, info, e, fuel)
            if n in self.libcalls:
                return self.libcall(self.libcalls[n], e)
            return self.builtin_call(n, e)
        if isinstance(f, ast.Attribute):
            key = self.dotted(f)
            if key in ('dt.timedelta', 'datetime.timedelta') and not e.args \
                    and len(e.keywords) == 1 and e.keywords[0].arg == 'days':
                return f"(lift1 py_timedelta {self.E(e.keywords[0].value)})"
            if key in self.libcalls:
                return self.libcall(self.libcalls[key], e)
            # method calls on values
            m = f.attr
            meth = {'upper': ('str_upper', 0), 'lower': ('str_lower', 0),
                    'zfill': ('str_zfill', 1)}
            meth.update(self.libcalls.get('__methods__', {}))
            if m in meth and not e.keywords:
                fn, ar = meth[m]
                if len(e.args) != ar:
                    bail(e, "method arity")
                if ar == 0:
                    return f"(lift1 {fn} {self.E(f.value)})"
                if ar == 1:
                    return f"(lift2 {fn} {self.E(f.value)} {self.E(e.args[0])})"
                if ar == 2:
                    return (f"(bind {self.E(f.value)} (fun o_ => bind {self.E(e.args[0])} (fun a_ => "
                            f"bind {self.E(e.args[1])} (fun b_ => {fn} o_ a_ b_))))")
            bail(e, "unsupported method call")
        if isinstance(f, ast.Subscript):
            # TABLE[key](args): call of a builtin function value
            args = [self.E(a) for a in e.args]
            tmps = [self.fresh('a') for _ in args]
            t = f"(py_call f_ [{'; '.join(tmps)}])"
            for a, tmp in reversed(list(zip(args, tmps))):
                t = f"(bind {a} (fun {tmp} => {t}))"
            return f"(bind {self.E(f)} (fun f_ => {t}))"
        bail(e, "unsupported call")

    def libcall(self, spec, e):
        fn, ar = spec
        if e.keywords or len(e.args) != ar:
            bail(e, f"library call arity for {fn}")
        args = [self.E(a) for a in e.args]
        tmps = [self.fresh('a') for _ in args]
        t = f"({fn} {' '.join(tmps)})"
        for a, tmp in reversed(list(zip(args, tmps))):
            t = f"(bind {a} (fun {tmp} => {t}))"
        return t

    def special_call(self, e):
        """Source idioms mapped as a whole to one library function."""
        # float(Decimal(repr(X)).quantize(Q, rounding=R))
        if (isinstance(e.func, ast.Name) and e.func.id == 'float' and len(e.args) == 1
                and isinstance(e.args[0], ast.Call)
                and isinstance(e.args[0].func, ast.Attribute)
                and e.args[0].func.attr == 'quantize'):
            q = e.args[0]
            recv = q.func.value
            if not (isinstance(recv, ast.Call) and isinstance(recv.func, ast.Name)
                    and recv.func.id == 'Decimal' and len(recv.args) == 1
                    and isinstance(recv.args[0], ast.Call)
                    and isinstance(recv.args[0].func, ast.Name)
                    and recv.args[0].func.id == 'repr' and len(recv.args[0].args) == 1):
                bail(e, "quantize receiver is not Decimal(repr(x))")
            x = recv.args[0].args[0]
            if len(q.args) != 1 or len(q.keywords) != 1 or q.keywords[0].arg != 'rounding':
                bail(e, "quantize arguments")
            nd = self.quant_digits(q.args[0])
            mode = self.E(q.keywords[0].value)
            return (f"(bind {self.E(x)} (fun x_ => bind {nd} (fun nd_ => bind {mode} "
                    f"(fun m_ => py_quantize_v x_ nd_ m_))))")
        return None

    def quant_digits(self, qe):
        """The number of decimal digits denoted by a quantum expression:
        Decimal(repr(pow(10, -ND))) -> ND;  a name bound by
        NAME = Decimal(f'1E{"+-"[ND >= 0]}{abs(ND)}') -> ND."""
        if isinstance(qe, ast.Name) and qe.id in getattr(self, 'quanta', {}):
            return self.quanta[qe.id]
        if (isinstance(qe, ast.Call) and isinstance(qe.func, ast.Name) and qe.func.id == 'Decimal'
                and len(qe.args) == 1 and isinstance(qe.args[0], ast.Call)
                and isinstance(qe.args[0].func, ast.Name) and qe.args[0].func.id == 'repr'):
            inner = qe.args[0].args[0]
            if (isinstance(inner, ast.Call) and isinstance(inner.func, ast.Name)
                    and inner.func.id == 'pow' and len(inner.args) == 2
                    and isinstance(inner.args[0], ast.Constant) and inner.args[0].value == 10
                    and isinstance(inner.args[1], ast.UnaryOp)
                    and isinstance(inner.args[1].op, ast.USub)):
                return self.E(inner.args[1].operand)
        bail(qe, "unrecognised Decimal quantum")

    QUANT_FSTR = ("JoinedStr(values=[Constant(value='1E'), FormattedValue(value=Subscript("
                  "value=Constant(value='+-'), slice=Compare(left=Name(id='@', ctx=Load()), "
                  "ops=[GtE()], comparators=[Constant(value=0)]), ctx=Load()), conversion=-1), "
                  "FormattedValue(value=Call(func=Name(id='abs', ctx=Load()), "
                  "args=[Name(id='@', ctx=Load())], keywords=[]), conversion=-1)])")

    def quant_assign(self, s):
        """NAME = Decimal(f'1E{"+-"[ND >= 0]}{abs(ND)}'): remember NAME -> ND."""
        if not (isinstance(s, ast.Assign) and len(s.targets) == 1
                and isinstance(s.targets[0], ast.Name) and isinstance(s.value, ast.Call)
                and isinstance(s.value.func, ast.Name) and s.value.func.id == 'Decimal'
                and len(s.value.args) == 1 and isinstance(s.value.args[0], ast.JoinedStr)):
            return False
        js = s.value.args[0]
        try:
            nd = js.values[2].value.args[0].id
        except (AttributeError, IndexError):
            bail(s, "unrecognised Decimal f-string")
        if ast.dump(js) != self.QUANT_FSTR.replace('@', nd):
            bail(s, "unrecognised Decimal f-string")
        self.need(nd, s)
        if not hasattr(self, 'quanta'):
            self.quanta = {}
        self.quanta[s.targets[0].id] = f"(Ok v_{nd})"
        return True

    def builtin_call(self, n, e):
        if e.keywords:
            bail(e, "keyword argument to builtin")
        a = e.args
        one = {'len': 'py_len', 'float': 'py_float', 'str': 'py_str', 'bool': 'py_bool',
               'abs': 'py_abs', 'tuple': 'py_tuple', 'list': 'py_list', 'bin': 'py_bin',
               'oct': 'py_oct', 'hex': 'py_hex', 'sum': 'py_sum', 'repr': 'py_repr'}
        if n == 'int':
            if len(a) == 1:
                return f"(lift1 py_int {self.E(a[0])})"
            if len(a) == 2:
                return (f"(bind {self.E(a[0])} (fun s_ => bind {self.E(a[1])} (fun b_ => "
                        f"match s_, b_ with VStr s_, VInt b_ => py_int_base s_ b_ | _, _ => Raise TypeError end)))")
        if n in one and len(a) == 1:
            if n == 'sum' and isinstance(a[0], ast.GeneratorExp):
                pass
            return f"(lift1 {one[n]} {self.E(a[0])})"
        if n in ('min', 'max'):
            if len(a) == 2:
                return f"(lift2 py_{n}2 {self.E(a[0])} {self.E(a[1])})"
            if len(a) == 1:
                return f"(bind {self.E(a[0])} (fun x_ => bind (py_iter x_) py_{n}_list))"
        if n == 'round' and len(a) == 2:
            return f"(lift2 py_round2 {self.E(a[0])} {self.E(a[1])})"
        if n == 'pow' and len(a) == 2:
            return f"(lift2 py_pow {self.E(a[0])} {self.E(a[1])})"
        if n == 'range' and len(a) == 2:
            return f"(lift2 py_range2 {self.E(a[0])} {self.E(a[1])})"
        if n == 'isinstance':
            return f"(val_of {self.C(e)})"
        if n in ('any', 'all') and len(a) == 1 and isinstance(a[0], ast.GeneratorExp):
            return f"(val_of {self.C(e)})"
        if n == 'next' and len(a) == 2 and isinstance(a[0], ast.GeneratorExp):
            elt, cond, it = self.gen_parts(a[0])
            return (f"(bind {it} (fun it_ => bind {self.E(a[1])} (fun d_ => "
                    f"gen_next {elt} {cond} it_ d_)))")
        bail(e, f"unsupported builtin call {n}")

    # -- expressions (condition context): a term of type res bool
    def C(self, e):
        if isinstance(e, ast.BoolOp):
            f = 'b_and' if isinstance(e.op, ast.And) else 'b_or'
            t = self.C(e.values[-1])
            for v in reversed(e.values[:-1]):
                t = f"({f} {self.C(v)} {t})"
            return t
        if isinstance(e, ast.UnaryOp) and isinstance(e.op, ast.Not):
            return f"(b_not {self.C(e.operand)})"
        if isinstance(e, ast.Compare):
            return self.compare(e)
        if isinstance(e, ast.Call) and isinstance(e.func, ast.Name):
            n = e.func.id
            if n == 'isinstance' and len(e.args) == 2 and n not in self.scope:
                t = e.args[1]
                ts = t.elts if isinstance(t, ast.Tuple) else [t]
                names = []
                special = None
                for x in ts:
                    if isinstance(x, ast.Name) and x.id in TYNAMES:
                        names.append(TYNAMES[x.id])
                    elif isinstance(x, ast.Call) and isinstance(x.func, ast.Name) and x.func.id == 'type' \
                            and isinstance(x.args[0], ast.Constant) and x.args[0].value is None:
                        names.append('TNone')
                    elif self.dotted(x) == 'collections.abc.Iterable' and len(ts) == 1:
                        special = 'is_iterable'
                    elif isinstance(x, ast.Name) and x.id in ('AddressRange', 'AddressCell',
                                                               'AddressMultiAreaRange', 'ExcelCmp'):
                        continue        # pycel object types: never pyvals
                    else:
                        bail(e, "isinstance type")
                if special:
                    return f"(bind {self.E(e.args[0])} (fun x_ => Ok ({special} x_)))"
                return f"(bind {self.E(e.args[0])} (fun x_ => Ok (py_isinstance x_ [{'; '.join(names)}])))"
            if n in ('any', 'all') and len(e.args) == 1 and isinstance(e.args[0], ast.GeneratorExp):
                g = e.args[0]
                saved = set(self.scope)
                # any(elt for x in it if cond): elt is the tested expression
                comp = g.generators[0]
                fake = ast.GeneratorExp(elt=ast.Constant(value=None), generators=g.generators)
                _, cond, it = self.gen_parts(fake)
                # the truth of elt
                if isinstance(comp.target, ast.Name):
                    self.scope.add(comp.target.id)
                    test = f"(fun v_{comp.target.id} => {self.C(g.elt)})"
                else:
                    bail(e, "any/all target")
                self.scope = saved
                if comp.ifs:
                    bail(e, "any/all with filter")
                return f"(bind {it} (fun it_ => gen_{n} {test} it_))"
        return f"(cond_of {self.E(e)})"

    def compare(self, e):
        operands = [e.left] + list(e.comparators)
        tmps = [self.fresh('c') for _ in operands]

        def one(op, a, b, rhs_node):
            if isinstance(op, ast.Eq):
                return f"(Ok (py_eq {a} {b}))"
            if isinstance(op, ast.NotEq):
                return f"(Ok (negb (py_eq {a} {b})))"
            if type(op) in CMPOPS:
                return f"({CMPOPS[type(op)]} {a} {b})"
            if isinstance(op, ast.In):
                return f"(py_in {a} {b})"
            if isinstance(op, ast.NotIn):
                return f"(b_not (py_in {a} {b}))"
            if isinstance(op, (ast.Is, ast.IsNot)):
                if not (isinstance(rhs_node, ast.Constant) and rhs_node.value is None):
                    bail(e, "is/is not with a non-None operand")
                t = f"(Ok match {a} with VNone => true | _ => false end)"
                return t if isinstance(op, ast.Is) else f"(b_not {t})"
            bail(e, "comparison operator")

        # a op1 b op2 c: operands evaluated at most once, left to right, lazily
        def chain(i):
            t = one(e.ops[i], tmps[i], tmps[i + 1], operands[i + 1])
            if i + 1 < len(e.ops):
                nxt = f"(bind {self.E(operands[i + 2])} (fun {tmps[i + 2]} => {chain(i + 1)}))"
                return f"(bind {t} (fun r_ => if r_ then {nxt} else Ok false))"
            return t
        return (f"(bind {self.E(operands[0])} (fun {tmps[0]} => "
                f"bind {self.E(operands[1])} (fun {tmps[1]} => {chain(0)})))")


# ---- appended for C20: f-strings whose fields are plain {expr} (no conversion,
# no format spec) become py_fstr [parts]; everything else stays untranslatable.
_E_before_fstring = ModuleTranslator.E


def _E_with_fstring(self, e):
    if isinstance(e, ast.JoinedStr):
        parts = []
        for v in e.values:
            if isinstance(v, ast.Constant) and isinstance(v.value, str):
                parts.append(f"(Ok {coq_value(v.value)})")
            elif isinstance(v, ast.FormattedValue) and v.conversion == -1 and v.format_spec is None:
                parts.append(self.E(v.value))
            else:
                bail(e, "f-string field with conversion or format spec")
        tmps = [self.fresh('f') for _ in parts]
        t = f"(py_fstr [{'; '.join(tmps)}])"
        for a, tmp in reversed(list(zip(parts, tmps))):
            t = f"(bind {a} (fun {tmp} => {t}))"
        return t
    return _E_before_fstring(self, e)


ModuleTranslator.E = _E_with_fstring


# ---- appended for C14 (aggregates: excellib._numerics / sum_, lib.stats) ----
# (1) callees with *args: the Coq function takes the args tuple as its last
#     parameter; a call f(a, b) packs the surplus positionals into a tuple and
#     f(*t) passes tuple(t).  Keyword-only parameters come from keywords or
#     from their (constant) defaults.
# (2) a keyword-only parameter whose default is a lambda (to_number=lambda x: x)
#     is not a parameter of the Coq function: it is bound to its default and
#     inlined (beta-reduced) where the body calls it.  A caller that passes the
#     keyword is rejected ("unknown keyword"): the specialisation is sound for
#     exactly the call sites that are translated.
# (3) consts entry 'Class.NAME': a class-level constant, emitted as
#     c_Class_NAME at the end of the generated module.
_info_of_before_c14 = ModuleTranslator.info_of
_function_before_c14 = ModuleTranslator.function
_call_before_c14 = ModuleTranslator.call
_args_for_before_c14 = ModuleTranslator.args_for
_translate_before_c14 = ModuleTranslator.translate


def _info_of_c14(self, fd, name):
    info = _info_of_before_c14(self, fd, name)
    lam = {}
    for x, d in zip(fd.args.kwonlyargs, fd.args.kw_defaults):
        if isinstance(d, ast.Lambda):
            la = d.args
            if la.vararg or la.kwarg or la.kwonlyargs or la.defaults or la.posonlyargs:
                bail(d, "lambda default with a non-trivial signature")
            lam[x.arg] = d
    if lam:
        info.params = [p for p in info.params if p not in lam]
        for p in lam:
            info.defaults.pop(p, None)
    info.lambdas = lam
    info.npos = len(fd.args.args)
    return info


def _function_c14(self, fd, info):
    self.lambda_env = dict(getattr(info, 'lambdas', {}))
    for n in ast.walk(fd):
        # the lambda-bound names must never be rebound in the body
        if isinstance(n, ast.Name) and isinstance(n.ctx, ast.Store) and n.id in self.lambda_env:
            bail(n, "assignment to a lambda-valued parameter")
    return _function_before_c14(self, fd, info)


def _call_c14(self, e):
    f = e.func
    env = getattr(self, 'lambda_env', {})
    if isinstance(f, ast.Name) and f.id in env and f.id not in self.scope:
        lam = env[f.id]
        params = [a.arg for a in lam.args.args]
        if e.keywords or len(e.args) != len(params) \
                or any(isinstance(a, ast.Starred) for a in e.args):
            bail(e, "call of a lambda-valued parameter")
        argterms = [self.E(a) for a in e.args]
        saved = set(self.scope)
        self.scope = set(params)        # the lambda body must be closed over its parameters
        body = self.E(lam.body)
        self.scope = saved
        tmps = [self.fresh('a') for _ in params]
        lets = "".join(f"let v_{p} := {tmp} in " for p, tmp in zip(params, tmps))
        t = f"({lets}{body})"
        for a, tmp in reversed(list(zip(argterms, tmps))):
            t = f"(bind {a} (fun {tmp} => {t}))"
        return t
    return _call_before_c14(self, e)


def _args_for_c14(self, info, call):
    if not info.vararg:
        return _args_for_before_c14(self, info, call)
    npos = getattr(info, 'npos', None)
    if npos is None:
        bail(call, "call of a *args function of unknown arity")
    fixed, rest = list(call.args[:npos]), list(call.args[npos:])
    if any(isinstance(a, ast.Starred) for a in fixed):
        bail(call, "starred argument in a fixed position")
    given = {}
    for p, a in zip(info.params[:npos], fixed):
        given[p] = self.E(a)
    if len(rest) == 1 and isinstance(rest[0], ast.Starred):
        var = f"(lift1 py_tuple {self.E(rest[0].value)})"
    elif not any(isinstance(a, ast.Starred) for a in rest):
        var = self.E(ast.Tuple(elts=rest, ctx=ast.Load()))
    else:
        bail(call, "mixed starred arguments")
    for kw in call.keywords:
        if kw.arg is None or kw.arg not in info.params:
            bail(call, "unknown keyword")
        if not isinstance(kw.value, (ast.Constant, ast.Name)):
            bail(call, "keyword argument of a *args call is not an atom")
        given[kw.arg] = self.E(kw.value)
    out = []
    for p in info.params:
        if p in given:
            out.append(given[p])
        elif p in info.defaults:
            out.append(f"(Ok {self.atom_const(info.defaults[p])})")
        else:
            bail(call, f"missing argument {p}")
    return ('plain', out + [var])


def _translate_c14(self):
    dotted = [c for c in self.const_names if '.' in c]
    if not dotted:
        return _translate_before_c14(self)
    self.const_names = [c for c in self.const_names if '.' not in c]
    text = _translate_before_c14(self)
    mod = importlib.import_module(self.pymod)
    lines = []
    for c in dotted:
        cls, attr = c.split('.')
        found = False
        for n in self.tree.body:
            if isinstance(n, ast.ClassDef) and n.name == cls:
                for m in n.body:
                    if isinstance(m, ast.Assign) and len(m.targets) == 1 \
                            and isinstance(m.targets[0], ast.Name) and m.targets[0].id == attr:
                        found = True
        if not found:
            raise Untranslatable(f"{self.modname}: class constant {c} not found")
        lines.append(f"Definition c_{cls}_{attr} : pyval := "
                     f"{coq_value(getattr(getattr(mod, cls), attr))}.")
    self.const_names = self.const_names + dotted
    return text + "\n".join(lines) + "\n"


ModuleTranslator.info_of = _info_of_c14
ModuleTranslator.function = _function_c14
ModuleTranslator.call = _call_c14
ModuleTranslator.args_for = _args_for_c14
ModuleTranslator.translate = _translate_c14
# ---- appended for C13: the "maybe unbound at a join and used afterwards" test
# of if_stmt/try_stmt asked whether the name occurs anywhere in the rest of the
# block; a name that is definitely re-assigned before it is read (fit_to_range's
# `fill`) is fine.  This refinement only accepts more programs; a wrong answer
# cannot produce a wrong model: the generated Coq term would mention an unbound
# v_<name> and fail to compile.
_names_used_anywhere = names_used


def names_used(stmts):      # noqa: F811
    """Names that may be read in stmts before being definitely assigned there."""
    def walk(ss, defined):
        reads = set()
        defined = set(defined)
        for s in ss:
            if isinstance(s, ast.Assign) and all(isinstance(t, ast.Name) for t in s.targets):
                reads |= _names_used_anywhere([ast.Expr(value=s.value)]) - defined
                defined |= {t.id for t in s.targets}
            elif isinstance(s, ast.If):
                reads |= _names_used_anywhere([ast.Expr(value=s.test)]) - defined
                r1, d1 = walk(s.body, defined)
                r2, d2 = walk(s.orelse, defined)
                reads |= r1 | r2
                defined = d1 & d2
            else:
                reads |= _names_used_anywhere([s]) - defined
        return reads, defined
    return walk(stmts, set())[0]
